import os
from props import rapid, fuzz, plain

# TestVerifC09PoisonTwice reproduces a reported finding (a precertificate with two poison extensions is answered
# with 500 instead of a client error). VERIF_C09_SKIP_FINDING=1 leaves that unit out (used for sensitivity runs of
# the main unit); once sunlight is repaired, set env VERIF_C09_POISON_TWICE=1 on the main unit instead so that the
# shape takes part in the full generator, and drop the extra unit.
_finding = [] if os.environ.get("VERIF_C09_SKIP_FINDING") == "1" else [
    rapid("ctlog", "internal/ctlog", "^TestVerifC09PoisonTwice$", 4, 30, ts=2),
]

PROPS = {"C09": dict(
    level="exploration",
    rule=("one rapid case = a fresh log (generated shard window incl. a 4 s window across the UTCTime/GeneralizedTime switch, key, 2-3 roots "
          "of a deterministic P-256 CA forest) driven through generated steps: root-set reloads (SetRootsFromPEM with subset/duplicate/"
          "non-certificate-block/re-sent bundles), restarts (LoadLog over the same backends) and rounds of 1-10 concurrent POSTs to "
          "add-chain/add-pre-chain followed by one sequencing round; each submission varies root (accepted or not, with or without CT EKU), "
          "0-3 intermediates, precertificate signing certificate, root included/omitted, NotAfter in {start-1s,start,start+1s,middle,limit-1s,"
          "limit,limit+1s}, EKU in {serverAuth, serverAuth+clientAuth, clientAuth, none, anyEKU}, type in {final, precert, malformed poison}, "
          "endpoint, and one of nine chain/body defects; generator modes: valid, exactly-one-fault, free, resubmission of an earlier chain. "
          "One evaluation = one submission. Non-trivial = a chain that must be accepted, has >= 1 intermediate or a precertificate signing "
          "certificate and a NotAfter on a boundary position (not 'middle'), or a chain that must be rejected for exactly one reason; "
          "distinct = hash of the canonical submission descriptor (window, root, accepted?, path shape, serial, NotAfter position, EKU, type, "
          "endpoint, defect with its parameters); also: re-keyed twin roots in reloads; JSON bodies with trailing data; refused issuer uploads during a batch; a handler panic is judged as an answer; failed _roots.pem upload followed by a retry; resubmission through another valid chain (cross-certificate, precertificate signing certificate toggled)"),
    assumptions=[
        "validity is known by construction of the CA forest; the linking part of that knowledge is cross-checked against crypto/x509.Verify "
        "on every chain whose validity periods overlap",
        "the expected entry is derived by the harness' own DER-level TBS defanger and vfref's TLS encoders/decoder; "
        "certificate-transparency-go is used only as second opinion and as the requested SCT signature verifier",
        "leaf EKU 'none' and 'anyEKU' are not decided by the statement: either verdict is accepted, consequences of the verdict are checked",
        "request bodies stay below the 128 KiB transport cap; all generated certificates carry subject/authority key identifiers",
        "MemoryBackend/MemoryLockBackend of the repository's test suite are faithful object/lock stores",
    ],
    technique="grammar-based chain generation at HTTP level with construction-known validity and independent RFC 6962 entry derivation",
    budget={"quick": 1500, "thorough": 3600},
    units=[
        # VERIF_C09_POISON_TWICE=1: since the fix (known_findings.json, fixed) the duplicated-poison shape takes part in the generator
        rapid("ctlog", "internal/ctlog", "^TestVerifC09Submissions$", 60, 420, env={"VERIF_C09_POISON_TWICE": "1"}),
    ] + _finding)}
