from props import rapid, fuzz, plain

PROPS = {"C15": dict(
    level="exploration",
    rule=("rapid-generated histories of a mirroring witness over two mirrored origins: add-checkpoint (pending +0..900), add-entries with "
          "(start,end) around next-entry / mirror / pending / ticket sizes (aligned, mid-tile, 8x256 window edges, ahead), tickets "
          "{none, valid, previous process, other origin, bit-flipped, truncated, garbage}, bodies {complete, cut after package j, cut "
          "mid-entry / mid-proof, wrong entry bytes, other fork, entries of the other origin, wrong/foreign proof, trailing, gzip, truncated gzip}, submitted checkpoints with foreign signature lines named like the witness/mirror, one or two requests "
          "or crash interleaved at a package / commit hook, single storage / lock faults (error applied or not, crash before / after) "
          "and restarts; after every request a fresh witness on a copy of the stores must complete the upload mirror->pending. "
          "non-trivial = history with at least one 200 commit after a truncated/conflicting upload or after a restart, and at least one "
          "commit at a mid-tile size; distinct = hash of the action/response trace; also: client retries after server-side failures, faults inside interleaved requests, scripted cut-commit prefix; two equally busy logs growing in step; stale commit at the previous mirror size after an applied-but-failed lock write"),
    assumptions=["vfref's RFC 6962 tree and the harness' own tlog-tiles entry-bundle encoder are correct",
                 "torchwood.ProveSubtree / tlog.ProveTree are used only to build request bodies, never to judge",
                 "Ed25519 (stdlib) and the public torchwood cosignature verifier decide signature validity",
                 "in-flight operations of a crashed process take effect at the crash instant or never"],
    technique="model-based stateful PBT with fault/crash injection and an independent storage auditor at every mirror lock write",
    budget={"quick": 600, "thorough": 2400},
    units=[
        rapid("witness", "internal/witness", "^TestVerifC15Mirror$", 400, 500, qs=3, env={"GOGC": "400"}),
    ])}
