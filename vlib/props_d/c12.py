from props import rapid, fuzz, plain

PROPS = {"C12": dict(
    level="exploration",
    rule=("honest logs of 1..1100 leaves (boundary-steered sizes; x509/precert mix; a log with mis-indexed leaves; an archival log) rendered by vfref, served through an "
          "in-memory 200/404-only RoundTripper or file:// / gzip+file:// directories with 0-3 generated tamperings of the served objects (bit flips, truncation, extension, "
          "deletion, object swaps, objects of another log, other-width tiles, entry swaps/rotation/duplication/removal/substitution, changed index/timestamp/type/issuer hash, "
          "changes to unauthenticated fields only, the whole other log), arbitrary start offsets, consumer breaks and resumption; SCTs assembled field by field with one defect; "
          "served checkpoints with one defect; non-trivial = a tampered object was consulted by the call, or the SCT/checkpoint differs from the genuine one in exactly one field; "
          "distinct = hash of the canonical case descriptor; also: single-bit tampers of leaf-index/timestamp fields in served leaves, SCT timestamp bit flips, SCT index plus k*2^32, checkpoints with a foreign signature-algorithm byte; after a successful Entry/CheckInclusion the same client is asked about the same position under a second tree head (another log, every object authentic)"),
    assumptions=["vfref renders RFC 6962 leaves, the Merkle tree and the Static CT tile layout correctly (cross-checked by C10 and vfref's own tests)",
                 "crypto/ecdsa and crypto/rsa verify correctly; SHA-256 is collision resistant"],
    technique="adversarial tile-server model with ground-truth comparison",
    budget={"quick": 600, "thorough": 2400},
    units=[
        rapid("root", ".", "^TestVerifC12Iterators$", 2500, 4000),
        rapid("root", ".", "^TestVerifC12EntryAndSCT$", 4000, 6000),
        rapid("root", ".", "^TestVerifC12Checkpoint$", 2000, 3000),
        # systematic single-fault enumeration (every size 257..1100 x every data tile); deterministic, one process
        plain("root", ".", "^TestVerifC12BundleSweep$", 1, 1, qs=1, ts=1),
    ])}
