from props import rapid


def _thorough_only(u, **kw):
    u["quick"] = None
    u["thorough"].update(kw)
    return u


PROPS = {"C05": dict(
    level="exploration",
    rule=("rapid-generated workloads per lock backend (SQLite on a real database file created with the README schema; DynamoDB and "
          "ETag/S3 through the real constructors and AWS SDK clients against protocol-level loopback fakes): 2-8 clients x 1-8 scripted "
          "operations (fetch / replace with the newest or an older held checkpoint / create / close+reopen) on 1-3 log IDs, unique values "
          "of classes plain, NUL+non-UTF-8 bytes, large (4 KiB / 70 KB / 300 KB), empty, nil; optional preseed; 1-2 phases with every store object "
          "closed in between; clients are goroutines on one store object, goroutines on separate store objects/connections, or separate OS "
          "processes (test binary re-executed, kept in a pool, store opened and closed per job), all stamped with raw CLOCK_MONOTONIC; a fresh store object finally reads everything back. "
          "non-trivial = the recorded history has >= 2 mutating operations on one log ID whose invoke/return intervals overlap and of which "
          ">= 1 failed its precondition; distinct = hash of the canonical case descriptor (backend, mode, ids, preseed, all scripts); also: writers also share two values per log ID (equal bytes from different clients, ABA) with an ABA-aware oracle; the DynamoDB fake evaluates condition expressions (attribute_exists/attribute_not_exists, =, <>, AND, OR, NOT, #names, :values); unknown syntax ends a case without a verdict"),
    assumptions=[
        "porcupine v1.3.0 decides linearizability of the recorded history correctly",
        "the DynamoDB and S3/Tigris fakes encode the documented service semantics (ConditionExpression, ConsistentRead, If-Match, "
        "Tigris' empty If-Match create rule, x-tigris-cas + Cache-Control: no-cache reads), not the services themselves; "
        "{\"B\": null} for a nil value is read as an empty binary",
        "CLOCK_MONOTONIC is consistent across CPUs and processes of this machine",
        "no faults are injected: a Replace/Create that fails for another reason than its precondition is accepted only as SQLITE_BUSY/LOCKED",
    ],
    technique="concurrent history recording + porcupine CAS-register linearizability check + direct invariants + request audit on protocol fakes",
    budget={"quick": 600, "thorough": 3000},
    units=[
        rapid("ctlog", "internal/ctlog", "^TestVerifC05SQLite$", 150, 600),
        rapid("ctlog", "internal/ctlog", "^TestVerifC05DynamoDB$", 150, 600),
        rapid("ctlog", "internal/ctlog", "^TestVerifC05ETag$", 150, 600),
        rapid("ctlog", "internal/ctlog", "^TestVerifC05Procs$", 100, 200),
        _thorough_only(rapid("ctlog", "internal/ctlog", "^TestVerifC05(SQLite|DynamoDB|ETag)$", 0, 150, ts=4), race=True),
        _thorough_only(rapid("ctlog", "internal/ctlog", "^TestVerifC05Procs$", 0, 100, ts=2), race=True),
    ])}
