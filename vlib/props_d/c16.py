from props import rapid

_files = ["c14*.go", "c16*.go"]   # c16 reuses the c14 model helpers (keys, stores, proof generators)

PROPS = {"C16": dict(
    level="exploration",
    rule=("rapid-generated sign-subtree requests against a witness with and one without a mirror key (logs registered through "
          "PullLogList): tree size 1..3000, (start,end) from {valid inside, valid but beyond the size, misaligned, empty, reversed, huge, "
          "non-canonical decimal}, checkpoint root of the log's own tree / another tree / unknown, signature block from "
          "{genuine witness ML-DSA, genuine mirror ML-DSA, witness Ed25519, log, foreign keys using the witness' or mirror's name, "
          "right name+key hash with garbage bytes, genuine own cosignature of another checkpoint}, hash from {right, other subtree, "
          "other tree, random, root, bit flip, malformed}, proof from {right, flipped, shortened, surplus, other range, other size, "
          "empty, malformed}, unknown origin, extension line, malformed header; non-trivial = the checkpoint carries >= 1 genuine own "
          "cosignature and the request has exactly one defect, or a fully valid request with a mixed signer set; distinct = hash of "
          "the request descriptor; also: witnesses with recorded heads; 'rootattack' profile offering a checkpoint root for a right-edge subtree, a shifted whole-tree-size range, the recorded head on top of an older checkpoint, or a prefix of the head; requests sent twice; one valid own cosignature next to a foreign/Ed25519 line under the other identity's name; malformed lines under an own cosigner name; accepted cosignature lines transplanted onto a forged checkpoint (invented root, whole tree as subtree)"),
    assumptions=["vfref Merkle tree is correct", "SHA-256 collision resistance (the right subtree consistency proof is unique)",
                 "filippo.io/mldsa verification is correct"],
    technique="stateless property test with an independent subtree-hash oracle and signature verification",
    units=[
        rapid("witness", "internal/witness", "^TestVerifC16SignSubtree$", 1500, 10000, files=_files),
    ])}
