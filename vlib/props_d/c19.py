from props import rapid, fuzz, plain

PROPS = {"C19": dict(
    level="exploration",
    rule=("one built skylight process per test process over generated directories (5 logs: host-only, path-prefixed, nested prefix, "
          "prefix-of-another, log under a witness host; 2 witnesses, one with mirror; tree sizes steered to 1/255/256/257/511/512/513/... and 65 792+ in the thorough tier; "
          "stale partial tiles; planted decoys: dot-files, temp leftovers, _roots.pem, staging/, index.html, shadowed sub-directories, symlinks to files and directories outside the roots); "
          "each case is one request written raw on the TCP connection, drawn from a grammar (layout paths of every object kind, absent coordinates, non-canonical tile paths, "
          "directories, dot-dot / %2e / %2f / %5c / double-slash / NUL traversal, symlinks, decoys, wrong / other / upper-case / port / absolute-form hosts, prefix confusion, "
          "witness and mirror origin segments known / unknown / encoded, byte-level mutations, query strings, Range, HEAD and other methods); "
          "non-trivial = a traversal / encoding / symlink / decoy / host / prefix / mutation / non-canonical / directory attempt, or a layout path of a partial, names or mirror tile; "
          "distinct = method + exact target bytes + host + extra headers; plus whole-log reads by an unmodified sunlight.Client; also: in-root symlinks to directories as decoys; files at large-index layout paths (two and three x-groups); percent-encoded spellings of real tile paths: an answer 200 with the named object must carry the prescribed metadata"),
    assumptions=["the harness' own percent-decoding and longest-prefix routing decide which configured directory a request belongs to",
                 "net/http's response parser is trusted to frame the responses of the binary",
                 "directory content is rendered by the independent reference model (vfref), so 'the file the path names' is known without asking the server"],
    technique="black-box request-grammar testing of the built binary against a reference path-to-file mapping; end-to-end differential read with the real client",
    bins=["cmd/skylight"],
    budget={"quick": 600, "thorough": 2400},
    units=[
        rapid("skylight", "cmd/skylight", "^TestVerifC19Requests$", 3000, 20000),
        plain("skylight", "cmd/skylight", "^TestVerifC19ClientRead$", 1, 3, ts=4),
    ])}
