from props import rapid, fuzz, plain

PROPS = {"C11": dict(
    level="exploration",
    rule=("rapid-generated log names (plain, unicode, '+', ASCII/unicode spaces, empty, invalid UTF-8, 255 and >255 bytes), tree sizes, roots and "
          "timestamps (0, 1, 2^63-1, uint64 above MaxInt64 for the verifier), keys (deterministic P-256/P-384, two fixed RSA-2048); checkpoints signed "
          "by signTreeHead and by the harness' own signer, then field-level and byte-level mutations of the text, the RFC6962NoteSignature blob and the "
          "note envelope, a relying party holding another key, added/duplicated/reordered signature lines; "
          "non-trivial = mutated input that still parses as a signed note, or an input accepted by sunlight that was not produced by the unmodified signer; "
          "distinct = hash of the canonical case descriptor (name, key, tuple, mutations, resulting bytes)"),
    assumptions=["crypto/ecdsa, crypto/rsa and filippo.io/mldsa verify correctly",
                 "vfref's hand-written checkpoint/note parser and STH encoder are correct renderings of c2sp.org/tlog-checkpoint, c2sp.org/signed-note and RFC 6962 section 3.5",
                 "certificate-transparency-go's VerifySTHSignature is at least as permissive as crypto/ecdsa.VerifyASN1 (used only in the direction sunlight-accepts => ct-go-accepts)"],
    technique="differential testing against an independent parser+verifier, byte/field mutation, native fuzzing",
    budget={"quick": 600, "thorough": 2400},
    units=[
        rapid("ctlog", "internal/ctlog", "^TestVerifC11SignTreeHead$", 3000, 5000),
        rapid("ctlog", "internal/ctlog", "^TestVerifC11VerifierStrict$", 20000, 30000),
        fuzz("ctlog", "internal/ctlog", "FuzzVerifC11RFC6962Verify", "90s"),
    ])}
