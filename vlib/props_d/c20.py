from props import rapid, fuzz, plain

_FILES = ["c19*.go", "c20*.go"]  # C20 reuses the directory renderer and the process / raw-HTTP helpers of C19

PROPS = {"C20": dict(
    level="exploration",
    rule=("a state = configuration (1-3 logs, active or past the read-only date, staging or not; 0-3 witnesses with 1-3 origins, with or without mirror, mirror sizes "
          "0/1/2/3/255/256/257/300/511/512/513/700/768, pending equal or ahead) + a generated subset of defects (0, 1 or 2-4; the defect kind is drawn first so every kind is equally frequent): "
          "log: stale 7 s..400 d, re-signed by another key, other origin, truncated, checkpoint / log.v3.json missing or garbage, key / name / interval altered, "
          "final tree missing or differing in size / root / timestamp; witness: verifier_keys empty / invalid / file missing or garbage, checkpoint cosigned by unlisted keys, "
          "directory renamed to another origin's hash, truncated, missing; mirror: the same on mirror.v0.json and the mirror checkpoint, right-edge tile missing / bit-flipped / shortened / lengthened, "
          "mirror ahead of pending, pending missing or of another origin. Ages within 1.5 s of the 5 s freshness threshold (or of the 7 d + 3 s read-only threshold) are never generated; fresh = timestamp in the future, "
          "or 0-1 s old with the case discarded if the machine needed more than 2 s. "
          "non-trivial = exactly one defect, or >= 2 defects with at least one on a staging entry; distinct = the full state descriptor; also: checkpoints whose origin line differs while the signature line keeps the log's name; witnesses with 110-170 origins (multi-KiB report); one case in forty probes a healthy log again through the same directory handle after its checkpoint became too old"),
    assumptions=["the harness' independent reading of the files (vfref note parser, own ECDSA / Ed25519 / ML-DSA-44 cosignature checks, own right-edge root recomputation) agrees with the expectation by construction on every case, otherwise the run is inconclusive",
                 "directory content may be rewritten under a running skylight (it re-reads the directories on every /health)"],
    technique="state-space exploration of directory defects with a three-way oracle (construction, independent evaluation, code); function level in-package and /health of the built binary",
    bins=["cmd/skylight"],
    budget={"quick": 600, "thorough": 2400},
    units=[
        rapid("skylight", "cmd/skylight", "^TestVerifC20Functions$", 400, 2500, files=_FILES),
        rapid("skylight", "cmd/skylight", "^TestVerifC20HealthBinary$", 40, 75, ts=4, files=_FILES),
    ])}
