from props import rapid, fuzz, plain

PROPS = {"C18": dict(
    level="exploration",
    rule=("two rapid generators. G2 synthetic sparse log/mirror directories: tree size drawn around every tile-level boundary up to 2^40 "
          "(256^k-1, 256^k, 256^k+1, j*256^k+-1, small, random), tiny full/partial tile files at indexes around the right edge of every level "
          "(hash levels, data, names, entries; x### nesting), arbitrary partial-width subsets, decoys (.p without full sibling, empty or directory "
          "full sibling, odd/temp/over-wide names inside .p, non-tile files, unusable checkpoints), immutable inode flags, signed checkpoint. "
          "G1 real-ish directories: complete logs produced by the real server (ctlog.CreateLog/LoadLog/RunSequencer/Handler over LocalBackend in many "
          "small rounds, optional crash after the lock commit = lock ahead of storage) or rendered with the reference model (sizes up to >65536), "
          "plus crashed-upload leftovers, earlier partial GC, and rendered mirror directories; tool run in-process or as the built binary. "
          "non-trivial = directory in which >=1 partial tile was eligible for deletion AND >=1 right-edge partial with an existing full sibling "
          "(or a decoy: orphan partial / odd name left of the edge) had to be preserved; distinct = hash of the canonical case descriptor; also: configurations with a log and a mirror mostly run as the built binary; witness directories carry the witness' own <origin hash>/checkpoint next to mirror/<origin hash>/; two or three directories per run (several mirrors in one witness directory, unpublished ones among them; several logs); binary-only fallback build when the tool's helpers were refactored"),
    assumptions=["the harness' own tile-path reader and right-edge arithmetic (c18_oracle.go) and the vfref reference model are correct",
                 "directories contain regular files and directories only (no symlinks/devices): LocalBackend never creates any",
                 "nobody else writes to the directory while the tool runs"],
    technique="property-based testing: directory diff against a set oracle computed independently, plus end-to-end audit/client/restart on real directories",
    bins=["cmd/partial-aftersun"],
    budget={"quick": 900, "thorough": 5400},
    units=[
        rapid("aftersun", "cmd/partial-aftersun", "^TestVerifC18Synthetic$", 600, 2500, fallback_tag="verif_binonly"),
        rapid("aftersun", "cmd/partial-aftersun", "^TestVerifC18Real$", 60, 100, fallback_tag="verif_binonly"),
    ])}
