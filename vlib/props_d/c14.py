from props import rapid

_race = dict(area="witness", pkg="internal/witness", run="^TestVerifC14HistoryRace$", kind="rapid",
             thorough=dict(checks=150, shards=8, race=True))

PROPS = {"C14": dict(
    level="exploration",
    rule=("rapid-generated histories: 1-3 origins, each a forest (base + 1-3 forks diverging at generated sizes, vfref trees), "
          "registered through PullLogList from a generated list file; 6-20 steps of single add-checkpoint requests, batches of 2-4 "
          "simultaneous requests, restarts and later list pulls; requests drawn relative to the recorded state over every defect kind "
          "(origin, signature block, old size, proof, header, checkpoint text, structure) with Lock.Replace (applied / not applied) and "
          "checkpoint-upload faults; non-trivial = a fork or a stale old size presented after >= 1 successful update, or two simultaneous "
          "defect-free updates from the same recorded size; distinct = hash of the step list; also: checkpoints signed by the key of another log the witness knows"),
    assumptions=["vfref Merkle tree and note parser are correct", "SHA-256 collision resistance (the right consistency proof is unique)",
                 "crypto/ed25519 and filippo.io/mldsa verification are correct",
                 "the harness lock store is a linearizable compare-and-swap register; a failed Replace took effect entirely or not at all"],
    technique="model-based stateful property test with lock-history safety oracle and linearization against a sequential specification",
    budget={"quick": 600, "thorough": 2400},
    units=[
        rapid("witness", "internal/witness", "^TestVerifC14History$", 400, 2000),
        _race,
    ])}
