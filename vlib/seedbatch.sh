#!/bin/bash
# seedbatch.sh C10:a C10:b ... : full confirmation (suite + check) of seeds under /tmp/seed/<ID>/out/<x>, sequentially
mkdir -p /verif/build/logs
for it in "$@"; do
  ID=${it%%:*}; X=${it##*:}
  echo "=== $ID-$X $(date +%T)"
  python3 /verif/vlib/seedconfirm.py ${SEEDBASE:-/tmp/seed}/$ID/out/$X $ID $X ${SEEDFLAGS:-} > /verif/build/logs/seed-$ID-$X.json 2>&1
  tail -1 /verif/build/logs/seed-$ID-$X.json
  grep -E '"(demo_pristine_passes|demo_patched_fails|existing_tests_pass|exit)"' /verif/build/logs/seed-$ID-$X.json | tr -d '\n'; echo
done
